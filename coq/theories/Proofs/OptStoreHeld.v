(** * C06: what the user holds keeps its function.

    For every step of the store machine of Model/OptStore.v (either policy): a node that
    is still referenced after the step is in the table after the step with the level and
    children it had before, and so is everything below it -- the diagram unfolded from
    any reference that survives the step is unchanged (nothing dangles, nothing held is
    rewritten). *)
From Coq Require Import List ZArith Bool Arith Lia.
From Meddly Require Import Model.RefStore Model.OptStore Proofs.RefStoreP Proofs.OptStoreP.
Import ListNotations.
Local Open Scope Z_scope.

(** every node in the table after a step was there before, or is the one new node *)
Lemma ostep_nodes_subset s o : OInv s -> 0 < os_next s -> ovalid s o ->
  forall n, In n (os_nodes (ostep s o)) -> In n (os_nodes s) \/ sn_id n = os_next s.
Proof.
  intros [HI Hcc Htk Htp] Hnext Hv n. destruct o as [nm lvl cs|nm' nm|nm|tk nm|tk]; cbn [ostep].
  - destruct (forallb (fun c => c =? 0) cs); [cbn; auto|].
    destruct (find_dup (os_nodes s) lvl cs); cbn; [auto|].
    intros [<-|H]; [right; reflexivity|auto].
  - destruct (lookup_name (os_names s) nm); cbn; auto.
  - destruct (lookup_name (os_names s) nm) as [id|] eqn:El; [|auto].
    cbn [with_table os_nodes].
    pose proof (lookup_name_in _ _ _ El) as Hin.
    assert (H0 : CInv (keep_of (os_opt s) (os_cc s)) (remove_name (os_names s) nm) (os_next s)
                      [id] (os_nodes s) (os_cnt s)).
    { constructor; try apply HI.
      - intros j Hj. rewrite (ci_exact _ _ _ _ _ _ HI j Hj).
        rewrite (name_refs_remove _ nm id j (ci_names _ _ _ _ _ _ HI) Hin).
        cbn [cnt_occ]. unfold cnt_occ. cbn. lia.
      - apply remove_name_nodup, (ci_names _ _ _ _ _ _ HI). }
    destruct (unlink_k_inv _ _ _ (top_level (os_nodes s)) id [] _ _ H0) as [_ Hsub].
    + intros m Hm _. now apply top_level_ge.
    + intros H. left. now apply Hsub.
  - destruct (lookup_name (os_names s) nm) as [id|]; [|auto].
    destruct (0 <? id); cbn; auto.
  - destruct (lookup_name (os_toks s) tk) as [id|] eqn:El; [|auto].
    cbn [os_nodes].
    set (cc' := upd_cnt (os_cc s) id (pred (os_cc s id))).
    destruct (Nat.eqb (cc' id) 0 && in_table (os_nodes s) id && Nat.eqb (os_cnt s id) 0) eqn:Econd;
      [|cbn; auto].
    apply andb_true_iff in Econd. destruct Econd as [Econd Ecnt].
    apply andb_true_iff in Econd. destruct Econd as [Elast Etab].
    apply Nat.eqb_eq in Elast, Ecnt. apply in_table_live in Etab.
    pose proof (lookup_name_in _ _ _ El) as Hin.
    assert (Hp : 0 < id) by (apply (Htp (tk, id) Hin)).
    assert (H1 : CInv (keep_of (os_opt s) cc') (os_names s) (os_next s) [id]
                      (os_nodes s) (upd_cnt (os_cnt s) id 1%nat)).
    { constructor; try apply HI.
      - intros j Hj. unfold upd_cnt. destruct (Z.eqb_spec j id) as [->|Hne].
        + pose proof (ci_exact _ _ _ _ _ _ HI id Hj) as Hex. rewrite Ecnt in Hex.
          rewrite cnt_occ_cons_eq. cbn in Hex |- *. lia.
        + rewrite (ci_exact _ _ _ _ _ _ HI j Hj), cnt_occ_cons_neq by congruence. reflexivity.
      - intros j Hj. rewrite (ci_live _ _ _ _ _ _ HI j Hj), !keep_of_true. unfold upd_cnt.
        destruct (Z.eqb_spec j id) as [->|Hne].
        + apply (ci_live _ _ _ _ _ _ HI id Hp) in Etab. rewrite keep_of_true in Etab.
          split; [intros _; left; lia|intros _; exact Etab].
        + unfold cc', upd_cnt. destruct (Z.eqb_spec j id); [contradiction|]. tauto. }
    destruct (unlink_k_inv _ _ _ (top_level (os_nodes s)) id [] _ _ H1) as [_ Hsub].
    + intros m Hm _. now apply top_level_ge.
    + intros H. left. now apply Hsub.
Qed.

(** a node that is referenced after the step is still in the table, unchanged *)
Theorem referenced_node_stable s o n :
  OInv s -> 0 < os_next s -> ovalid s o ->
  In n (os_nodes s) ->
  (1 <= os_cnt (ostep s o) (sn_id n))%nat ->
  In n (os_nodes (ostep s o)).
Proof.
  intros HO Hnext Hv Hn Hc.
  destruct (ostep_inv s o HO Hnext Hv) as ([HI' _ _ _] & _ & _).
  destruct HO as [HI Hcc Htk Htp] eqn:EHO.
  pose proof (ci_range _ _ _ _ _ _ HI n Hn) as Hr.
  assert (Hl : live (os_nodes (ostep s o)) (sn_id n)).
  { apply (ci_live _ _ _ _ _ _ HI' (sn_id n)); [lia|]. left. exact Hc. }
  destruct Hl as (n' & Hn' & Hid).
  destruct (ostep_nodes_subset s o (Build_OInv _ HI Hcc Htk Htp) Hnext Hv n' Hn') as [Hold|Hnew]; [|lia].
  assert (n' = n) by (apply (nodup_id_eq _ n' n (ci_ids _ _ _ _ _ _ HI) Hold Hn Hid)).
  now subst n'.
Qed.

(** the diagram below a node of the table, as a tree of (level, children); terminals
    (identifiers <= 0) are leaves; [None] if something is missing *)
Inductive stree := SLeaf (v : Z) | SNode (lvl : nat) (cs : list stree).

Fixpoint seqo {A} (l : list (option A)) : option (list A) :=
  match l with
  | [] => Some []
  | None :: _ => None
  | Some a :: r => option_map (cons a) (seqo r)
  end.

Fixpoint unfold (fuel : nat) (ns : list snode) (id : Z) : option stree :=
  if id <=? 0 then Some (SLeaf id)
  else match fuel with
       | O => None
       | S f =>
           match find_node ns id with
           | None => None
           | Some n => option_map (SNode (sn_lvl n)) (seqo (map (unfold f ns) (sn_cs n)))
           end
       end.

Lemma find_node_in_nodup ns n : NoDup (map sn_id ns) -> In n ns -> find_node ns (sn_id n) = Some n.
Proof.
  intros Hnd Hn. destruct (find_node ns (sn_id n)) as [m|] eqn:E.
  - destruct (find_node_some _ _ _ E) as [Hm Hid]. f_equal.
    apply (nodup_id_eq _ m n Hnd Hm Hn Hid).
  - exfalso. unfold find_node in E. pose proof (find_none _ _ E n Hn) as H. cbn in H.
    now rewrite Z.eqb_refl in H.
Qed.

(** the diagram unfolded from any identifier that is still referenced after the step is
    the one unfolded before the step *)
Theorem unfold_stable s o :
  OInv s -> 0 < os_next s -> ovalid s o ->
  forall fuel id t,
  (id <= 0 \/ (1 <= os_cnt (ostep s o) id)%nat) ->
  unfold fuel (os_nodes s) id = Some t ->
  unfold fuel (os_nodes (ostep s o)) id = Some t.
Proof.
  intros HO Hnext Hv.
  destruct (ostep_inv s o HO Hnext Hv) as ([HI' _ _ _] & _ & _).
  pose proof HO as [HI _ _ _].
  induction fuel as [|f IH]; intros id t Hc Hu; cbn [unfold] in *.
  - destruct (Z.leb_spec id 0); [exact Hu|discriminate].
  - destruct (Z.leb_spec id 0) as [Hle|Hpos]; [exact Hu|].
    destruct Hc as [Hc|Hc]; [lia|].
    destruct (find_node (os_nodes s) id) as [n|] eqn:Ef; [|discriminate].
    destruct (find_node_some _ _ _ Ef) as [Hn Hid]. subst id.
    pose proof (referenced_node_stable s o n HO Hnext Hv Hn Hc) as Hn'.
    rewrite (find_node_in_nodup _ n (ci_ids _ _ _ _ _ _ HI') Hn').
    (* the children are referenced by n, which is in the new table *)
    assert (Hch : forall c, In c (sn_cs n) -> c <= 0 \/ (1 <= os_cnt (ostep s o) c)%nat).
    { intros c Hcin. destruct (Z.leb_spec c 0) as [|Hcp]; [now left|right].
      rewrite (ci_exact _ _ _ _ _ _ HI' c Hcp).
      assert (1 <= node_refs (os_nodes (ostep s o)) c)%nat; [|lia].
      apply node_refs_in. exists n. split; assumption. }
    revert Hu. generalize (sn_lvl n). intros lv.
    assert (G : forall l ts, (forall c, In c l -> In c (sn_cs n)) ->
                seqo (map (unfold f (os_nodes s)) l) = Some ts ->
                seqo (map (unfold f (os_nodes (ostep s o))) l) = Some ts).
    { induction l as [|c l IHl]; intros ts Hsub Hs; cbn [map seqo] in *; [exact Hs|].
      destruct (unfold f (os_nodes s) c) as [tc|] eqn:Ec; [|discriminate].
      rewrite (IH c tc (Hch c (Hsub c (or_introl eq_refl))) Ec).
      destruct (seqo (map (unfold f (os_nodes s)) l)) as [tl|] eqn:El; [|discriminate].
      rewrite (IHl tl (fun c' H => Hsub c' (or_intror H)) eq_refl). exact Hs. }
    destruct (seqo (map (unfold f (os_nodes s)) (sn_cs n))) as [ts|] eqn:Es; [|discriminate].
    intros Hu. rewrite (G (sn_cs n) ts (fun c H => H) Es). exact Hu.
Qed.

(** in particular for every reference the user still holds after the step *)
Corollary held_reference_keeps_its_diagram s o nm id fuel t :
  OInv s -> 0 < os_next s -> ovalid s o ->
  lookup_name (os_names s) nm = Some id ->
  lookup_name (os_names (ostep s o)) nm = Some id ->
  unfold fuel (os_nodes s) id = Some t ->
  unfold fuel (os_nodes (ostep s o)) id = Some t.
Proof.
  intros HO Hnext Hv _ Hl' Hu. apply (unfold_stable s o HO Hnext Hv fuel id t); [|exact Hu].
  destruct (Z.leb_spec id 0) as [|Hp]; [now left|right].
  destruct (ostep_inv s o HO Hnext Hv) as ([HI' _ _ _] & _ & _).
  rewrite (ci_exact _ _ _ _ _ _ HI' id Hp).
  assert (1 <= name_refs (os_names (ostep s o)) id)%nat; [|lia].
  unfold name_refs. apply cnt_occ_pos. apply lookup_name_in in Hl'.
  change id with (snd (nm, id)). now apply in_map.
Qed.

Lemma unfold_terminal fuel ns c : c <= 0 -> unfold fuel ns c = Some (SLeaf c).
Proof. intros H. destruct fuel; cbn [unfold]; destruct (Z.leb_spec c 0); try lia; reflexivity. Qed.

Lemma unfold_S f ns id : 0 < id ->
  unfold (S f) ns id =
  match find_node ns id with
  | None => None
  | Some n => option_map (SNode (sn_lvl n)) (seqo (map (unfold f ns) (sn_cs n)))
  end.
Proof. intros H. change (unfold (S f) ns id) with
  (if id <=? 0 then Some (SLeaf id) else
   match find_node ns id with
   | None => None
   | Some n => option_map (SNode (sn_lvl n)) (seqo (map (unfold f ns) (sn_cs n)))
   end). destruct (Z.leb_spec id 0); [lia|reflexivity]. Qed.

(** nothing dangles: the diagram below any node of the table unfolds completely *)
Theorem unfold_total s : OInv s ->
  forall L id, (forall n, In n (os_nodes s) -> sn_id n = id -> (sn_lvl n <= L)%nat) ->
  (id <= 0 \/ live (os_nodes s) id) ->
  exists t, unfold (S L) (os_nodes s) id = Some t.
Proof.
  intros [HI _ _ _]. induction L as [|L IH]; intros id Hlv Hl;
    (destruct (Z.leb_spec id 0) as [Hle|Hp]; [rewrite unfold_terminal by exact Hle; eexists; reflexivity|]);
    (destruct Hl as [|Hl]; [lia|]); destruct (find_node_live _ _ Hl) as (n & Hf);
    rewrite unfold_S, Hf by exact Hp; destruct (find_node_some _ _ _ Hf) as [Hn Hid].
  - assert (Hnoc : forall c, In c (sn_cs n) -> c <= 0).
    { intros c Hc. destruct (Z.leb_spec c 0); [assumption|].
      destruct (ci_below _ _ _ _ _ _ HI n c Hn Hc ltac:(lia)) as (m & _ & _ & Hlt).
      pose proof (Hlv n Hn Hid). lia. }
    assert (G : forall l, (forall c, In c l -> c <= 0) ->
                exists ts, seqo (map (unfold 0 (os_nodes s)) l) = Some ts).
    { induction l as [|c l IHl]; intros Hc; cbn [map seqo]; [eexists; reflexivity|].
      rewrite (unfold_terminal 0 (os_nodes s) c (Hc c (or_introl eq_refl))).
      destruct IHl as (ts & ->); [intros c' H'; apply Hc; now right|]. eexists; reflexivity. }
    destruct (G _ Hnoc) as (ts & ->). eexists; reflexivity.
  - assert (G : forall l, (forall c, In c l -> In c (sn_cs n)) ->
                exists ts, seqo (map (unfold (S L) (os_nodes s)) l) = Some ts).
    { induction l as [|c l IHl]; intros Hc; cbn [map seqo]; [eexists; reflexivity|].
      assert (Hex : exists tc, unfold (S L) (os_nodes s) c = Some tc).
      { apply IH.
        - intros m Hm Hmid. destruct (Z.leb_spec c 0) as [Hc0|Hc0].
          + pose proof (ci_range _ _ _ _ _ _ HI m Hm). lia.
          + destruct (ci_below _ _ _ _ _ _ HI n c Hn (Hc c (or_introl eq_refl)) Hc0) as (q & Hq & Hqid & Hlt).
            assert (q = m) by (apply (nodup_id_eq _ q m (ci_ids _ _ _ _ _ _ HI) Hq Hm); congruence).
            subst q. pose proof (Hlv n Hn Hid). lia.
        - destruct (Z.leb_spec c 0) as [Hc0|Hc0]; [now left|right].
          destruct (ci_below _ _ _ _ _ _ HI n c Hn (Hc c (or_introl eq_refl)) Hc0) as (q & Hq & Hqid & _).
          exists q. split; assumption. }
      destruct Hex as (tc & ->).
      destruct IHl as (ts & ->); [intros c' H'; apply Hc; now right|]. eexists; reflexivity. }
    destruct (G (sn_cs n) (fun c H => H)) as (ts & ->). eexists; reflexivity.
Qed.

(** reachable states *)
Lemma orun_inv_next : forall ops s, OInv s -> 0 < os_next s -> ovalid_run s ops ->
  OInv (fold_left ostep ops s) /\ 0 < os_next (fold_left ostep ops s).
Proof.
  induction ops as [|o ops IH]; intros s HI Hn Hv; cbn [fold_left]; [split; assumption|].
  destruct Hv as [Hvo Hvr]. destruct (ostep_inv s o HI Hn Hvo) as (HI' & Hn' & _).
  now apply IH.
Qed.
