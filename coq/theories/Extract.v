(** Extraction of the executable model.  ExtrOcamlBasic only: bool, option,
    unit, list, prod, sumbool, sumor map to OCaml's; nat, positive, N, Z stay
    the extracted inductive types.  No Extract Constant. *)
From Coq Require Import Extraction ExtrOcamlBasic.
From Meddly Require Import Model.DD Model.EvDD Model.RefStore Model.OptStore Model.Counter Model.Build Model.Scalar Model.Bits Gen.Terminal Gen.Levels Model.MemSpec Model.Audit Model.Reach Model.Enum Model.Reorder Model.Lifecycle Model.Precheck Model.Product Model.EnumOpt.
Extraction Language OCaml.
Extraction "model.ml"
  DD.dd_eqb DD.mk DD.unpack DD.evalS DD.evalL DD.eval DD.reducedb DD.of_fun
  DD.apply2 DD.apply1 DD.copy DD.all_asg DD.table
  Build.build Build.build_spec Build.const_dd Build.var_dd Build.matches
  Scalar.scalar2 Scalar.scalar2_undefined Scalar.compl Scalar.conv Scalar.ev_undefined Scalar.ev_scalar2 Scalar.ev_compare Scalar.conv_to_ev Scalar.conv_from_ev Scalar.evt_encode Scalar.evt_decode Scalar.evp_encode Scalar.evp_decode
  Terminal.getIntegerHandle Terminal.getRealHandle Terminal.setFromHandle_INTEGER
  Terminal.setFromHandle_REAL Terminal.setFromHandle_BOOLEAN Terminal.intMin Terminal.intMax
  MemSpec.accept MemSpec.fl_init MemSpec.fl_request MemSpec.fl_recycle
  Audit.audit Audit.dom_ok Counter.ctr_init Counter.cstep RefStore.st_init RefStore.sstep RefStore.observe RefStore.lookup_name OptStore.os_init OptStore.ostep OptStore.oobserve OptStore.handle_free EvDD.ev_of_fun EvDD.ev_eval EvDD.ev_reduced
  Reach.dpost Reach.dpre Reach.dist_bfs Reach.dmin
  Reach.sat_dd_fast Reach.reach_fs_dd_fast Reach.reach_dd_fast Reach.rreach_dd_fast Reach.post_dd Reach.pre_dd Reach.reach_dd Reach.rreach_dd Reach.vm_dd Reach.mv_dd Reach.rel_sz Reach.cross_dd
  Enum.enum Enum.cardinality Enum.node_count Enum.edge_count Enum.members Enum.index_table Enum.get_element
  Reorder.permute_dd
  Lifecycle.ls_init Lifecycle.lstep
  Product.prod_countN Product.unrankN Product.rankN
  EnumOpt.enum_opt Precheck.precheck
  Levels.isLevelAbove Levels.MXD_downLevel Levels.MXD_upLevel Levels.MXD_topLevel Levels.MXD_topUnprimed
  Levels.MXD_unprimedOfLevel Levels.MXD_primedOfLevel Levels.MDD_downLevel Levels.MDD_upLevel Levels.MDD_topLevel.
